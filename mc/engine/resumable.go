package engine

import (
	"bufio"
	"encoding/json"
	"fmt"
	"os"
	"os/exec"
	"strconv"
	"sync"
	"syscall"
	"time"
)

// Resumable workers: each worker processes item indices i ≡ shard (mod n), i >= VERIF_RESUME,
// emitting {"start":i} before and {"done":i,...} after each item. If a worker dies (CPU limit,
// out of memory, fatal error) the in-flight item is first retried in a FRESH worker process
// starting at that item: a death that is a property of the item (a crash or non-termination the
// input causes) repeats there, a death caused by what the worker process accumulated over the
// thousands of earlier items (address-space limit reached by leftover informer goroutines) does
// not. Only a death that repeats is reported; the worker then resumes after the item. Used where the property under test is "terminates without crashing".

const ResumeEnv = "VERIF_RESUME"

// MaxDeaths (0 = unlimited): once this many confirmed deaths were reported, a worker whose item dies
// again stops instead of resuming after it (every death already is a violation; on a tree where
// hundreds of inputs hang the sweep would otherwise spend 2 x the CPU budget on each). DeathsCapped
// tells the caller that the enumeration was cut short.
var MaxDeaths int
var DeathsCapped bool
var confirmedDeaths int

// RetriedDeaths counts worker deaths that did not repeat when the item was re-run in a fresh process.
var RetriedDeaths int

func ResumeFrom() int {
	v, _ := strconv.Atoi(os.Getenv(ResumeEnv))
	return v
}

type Death struct {
	Item   int
	Reason string // exit status / signal
	Stderr string
}

// CPUWatchdog kills the process (exit code 97) if the CPU time consumed since the last Reset
// exceeds limit. CPU time, not wall clock: machine load cannot trigger it.
type CPUWatchdog struct {
	mu    sync.Mutex
	base  time.Duration
	limit time.Duration
}

func cpuTime() time.Duration {
	var ru syscall.Rusage
	_ = syscall.Getrusage(syscall.RUSAGE_SELF, &ru)
	return time.Duration(ru.Utime.Nano() + ru.Stime.Nano())
}

func StartCPUWatchdog(limit time.Duration) *CPUWatchdog {
	w := &CPUWatchdog{base: cpuTime(), limit: limit}
	go func() {
		for {
			time.Sleep(200 * time.Millisecond)
			w.mu.Lock()
			over := cpuTime()-w.base > w.limit
			w.mu.Unlock()
			if over {
				FlushEmit()
				fmt.Fprintln(os.Stderr, "CPU-WATCHDOG: item exceeded its CPU budget")
				os.Exit(97)
			}
		}
	}()
	return w
}

func (w *CPUWatchdog) Reset() { w.mu.Lock(); w.base = cpuTime(); w.mu.Unlock() }

func RunResumableWorkers(n, items int, memLimitKB int, onLine func(worker int, line []byte), onDeath func(d Death)) error {
	exe, err := os.Executable()
	if err != nil {
		return err
	}
	var wg sync.WaitGroup
	var cbMu sync.Mutex
	errs := make([]error, n)
	for i := 0; i < n; i++ {
		wg.Add(1)
		go func(shard int) {
			defer wg.Done()
			resume := 0
			retried := -1
			for restarts := 0; ; restarts++ {
				if restarts > 2*items+2 {
					errs[shard] = fmt.Errorf("worker %d: too many restarts", shard)
					return
				}
				sh := fmt.Sprintf("ulimit -v %d; exec \"$0\" \"$@\"", memLimitKB)
				cmd := exec.Command("/bin/sh", append([]string{"-c", sh, exe}, os.Args[1:]...)...)
				cmd.Env = append(os.Environ(), fmt.Sprintf("%s=%d/%d", WorkerEnv, shard, n), fmt.Sprintf("%s=%d", ResumeEnv, resume), "GOMAXPROCS=2")
				out, err := cmd.StdoutPipe()
				if err != nil {
					errs[shard] = err
					return
				}
				var stderrBuf tailBuffer
				cmd.Stderr = &stderrBuf
				if err := cmd.Start(); err != nil {
					errs[shard] = err
					return
				}
				inflight, finished := -1, false
				sc := bufio.NewScanner(out)
				sc.Buffer(make([]byte, 1<<20), 1<<28)
				for sc.Scan() {
					line := sc.Bytes()
					if len(line) < 3 || line[0] != '@' || line[1] != '@' {
						continue
					}
					var probe struct {
						Start    *int `json:"start"`
						Done     *int `json:"done"`
						Finished bool `json:"finished"`
					}
					if json.Unmarshal(line[2:], &probe) == nil {
						if probe.Start != nil {
							inflight = *probe.Start
							continue
						}
						if probe.Done != nil {
							inflight = -1
						}
						if probe.Finished {
							finished = true
							continue
						}
					}
					cbMu.Lock()
					onLine(shard, append([]byte{}, line[2:]...))
					cbMu.Unlock()
				}
				werr := cmd.Wait()
				if finished && werr == nil {
					return
				}
				if inflight < 0 {
					errs[shard] = fmt.Errorf("worker %d died outside an item: %v\n%s", shard, werr, stderrBuf.String())
					return
				}
				if retried != inflight {
					retried = inflight
					resume = inflight
					cbMu.Lock()
					RetriedDeaths++
					cbMu.Unlock()
					continue
				}
				cbMu.Lock()
				onDeath(Death{Item: inflight, Reason: fmt.Sprint(werr), Stderr: stderrBuf.String()})
				confirmedDeaths++
				stop := MaxDeaths > 0 && confirmedDeaths >= MaxDeaths
				if stop {
					DeathsCapped = true
				}
				cbMu.Unlock()
				if stop {
					return
				}
				resume = inflight + 1
			}
		}(i)
	}
	wg.Wait()
	for _, e := range errs {
		if e != nil {
			return e
		}
	}
	return nil
}
