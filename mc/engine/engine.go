// Package engine holds what every check shares: evidence files, violation/replay reporting,
// known-findings matching, and the self-exec worker pool.
package engine

import (
	"bufio"
	"crypto/sha256"
	"encoding/hex"
	"encoding/json"
	"fmt"
	"os"
	"os/exec"
	"path/filepath"
	"sort"
	"strconv"
	"strings"
	"sync"
	"time"
)

const VerifDir = "/verif"

// ---------------------------------------------------------------- evidence

type Evidence struct {
	PropertyID  string         `json:"property_id"`
	Tier        string         `json:"tier"`
	Seed        int            `json:"seed"`
	Level       string         `json:"level"`
	Coverage    map[string]any `json:"coverage"`
	Assumptions []string       `json:"assumptions,omitempty"`
	WallS       float64        `json:"wall_s"`
	Violations  int            `json:"violations"`
}

// OutDir is where evidence and replay files go: /verif, or $VERIF_OUT (used by mutant runs so
// that a deliberately broken tree never overwrites the committed evidence).
func OutDir() string {
	if d := os.Getenv("VERIF_OUT"); d != "" {
		return d
	}
	return VerifDir
}

func WriteEvidence(e *Evidence) error {
	dir := filepath.Join(OutDir(), "evidence")
	if err := os.MkdirAll(dir, 0o755); err != nil {
		return err
	}
	b, err := json.MarshalIndent(e, "", " ")
	if err != nil {
		return err
	}
	return os.WriteFile(filepath.Join(dir, e.PropertyID+".json"), append(b, '\n'), 0o644)
}

func SeedFromEnv() int {
	if s := os.Getenv("VERIF_SEED"); s != "" {
		if v, err := strconv.Atoi(s); err == nil {
			return v
		}
	}
	return 0
}

// ---------------------------------------------------------------- violations

// Violation is a property violation found on one explored execution.
type Violation struct {
	Property string `json:"property"`
	// Key identifies WHAT fails (stable across runs; matched against known_findings.json).
	Key     string `json:"key"`
	Message string `json:"message"`
	// Replay is everything needed to re-execute the failing execution.
	Replay any `json:"replay,omitempty"`
}

type KnownFinding struct {
	Property string `json:"property"`
	// Match is a substring every violation Key of this finding contains.
	Match  string `json:"match"`
	What   string `json:"what"`
	Status string `json:"status"` // "open" | "fixed"
	Commit string `json:"commit,omitempty"`
}

func LoadKnownFindings() []KnownFinding {
	b, err := os.ReadFile(filepath.Join(VerifDir, "known_findings.json"))
	if err != nil {
		return nil
	}
	var f struct {
		Findings []KnownFinding `json:"findings"`
	}
	if err := json.Unmarshal(b, &f); err != nil {
		fmt.Fprintf(os.Stderr, "harness: known_findings.json unreadable: %v\n", err)
		os.Exit(2)
	}
	return f.Findings
}

// Reporter accumulates violations, separates known findings from new ones.
type Reporter struct {
	Property string
	mu       sync.Mutex
	known    []KnownFinding
	newV     []Violation
	knownHit map[string]int
	seenKeys map[string]bool
}

func NewReporter(prop string) *Reporter {
	r := &Reporter{Property: prop, knownHit: map[string]int{}, seenKeys: map[string]bool{}}
	// stale replay files of earlier runs of this property are removed: replays/ mirrors THIS run
	if old, err := filepath.Glob(filepath.Join(OutDir(), "evidence", "replays", prop+"-*.json")); err == nil {
		for _, f := range old {
			_ = os.Remove(f)
		}
	}
	for _, k := range LoadKnownFindings() {
		if k.Property == prop && k.Status == "open" {
			r.known = append(r.known, k)
		}
	}
	return r
}

func (r *Reporter) Add(v Violation) {
	// diagnostics only: restrict what is kept (and therefore which replays are written)
	if f := os.Getenv("VERIF_KEY_FILTER"); f != "" && !strings.Contains(v.Key, f) {
		return
	}
	if f := os.Getenv("VERIF_KEY_EXCLUDE"); f != "" && strings.Contains(v.Key, f) {
		return
	}
	r.mu.Lock()
	defer r.mu.Unlock()
	for _, k := range r.known {
		if strings.Contains(v.Key, k.Match) {
			r.knownHit[k.Match]++
			return
		}
	}
	if r.seenKeys[v.Key] {
		return
	}
	r.seenKeys[v.Key] = true
	if len(r.newV) < 50 {
		r.newV = append(r.newV, v)
	}
}

func (r *Reporter) NewCount() int { r.mu.Lock(); defer r.mu.Unlock(); return len(r.seenKeys) }

func (r *Reporter) KnownHits() map[string]int { return r.knownHit }

// Finish prints KNOWN-FINDING / VIOLATION lines, writes replay files, and returns the exit code.
func (r *Reporter) Finish() int {
	for _, k := range r.known {
		if n := r.knownHit[k.Match]; n > 0 {
			fmt.Printf("KNOWN-FINDING: property=%s %s (reproduced on %d explored executions)\n", r.Property, k.What, n)
		}
	}
	if len(r.newV) == 0 {
		return 0
	}
	dir := filepath.Join(OutDir(), "evidence", "replays")
	_ = os.MkdirAll(dir, 0o755)
	sort.Slice(r.newV, func(i, j int) bool { return r.newV[i].Key < r.newV[j].Key })
	maxReplays := 5
	if os.Getenv("VERIF_KEYS") == "all" { // diagnostics: a replay for every kept violation
		maxReplays = 50
	}
	for i, v := range r.newV {
		if i >= maxReplays {
			break
		}
		h := sha256.Sum256([]byte(v.Key))
		p := filepath.Join(dir, fmt.Sprintf("%s-%s.json", r.Property, hex.EncodeToString(h[:6])))
		b, _ := json.MarshalIndent(v, "", " ")
		_ = os.WriteFile(p, b, 0o644)
		fmt.Printf("VIOLATION property=%s replay=%s\n", r.Property, p)
		fmt.Printf("  %s\n", v.Message)
	}
	if os.Getenv("VERIF_KEYS") == "all" { // diagnostics: every distinct new key, one per line
		ks := make([]string, 0, len(r.seenKeys))
		for k := range r.seenKeys {
			ks = append(ks, k)
		}
		sort.Strings(ks)
		_ = os.WriteFile(filepath.Join(OutDir(), "evidence", r.Property+"-keys.txt"), []byte(strings.Join(ks, "\n")+"\n"), 0o644)
	}
	if os.Getenv("VERIF_KEYS") != "" {
		for _, v := range r.newV {
			fmt.Printf("KEY %s\n    %s\n", v.Key, strings.ReplaceAll(v.Message, "\n", "\n    "))
		}
	}
	if len(r.newV) > 5 {
		fmt.Printf("  (+%d more distinct violations)\n", len(r.seenKeys)-5)
	}
	return 1
}

// ---------------------------------------------------------------- worker pool (self-exec)

// WorkerEnv: when set, the process is a worker: "<index>/<count>".
const WorkerEnv = "VERIF_WORKER"

func WorkerShard() (idx, n int, isWorker bool) {
	s := os.Getenv(WorkerEnv)
	if s == "" {
		return 0, 1, false
	}
	parts := strings.Split(s, "/")
	idx, _ = strconv.Atoi(parts[0])
	n, _ = strconv.Atoi(parts[1])
	return idx, n, true
}

// Emit writes one JSON line to the parent.
var emitMu sync.Mutex
var emitW = bufio.NewWriterSize(os.Stdout, 1<<20)

func Emit(v any) {
	b, err := json.Marshal(v)
	if err != nil {
		panic(err)
	}
	emitMu.Lock()
	emitW.Write([]byte("@@"))
	emitW.Write(b)
	emitW.WriteByte('\n')
	emitMu.Unlock()
}

func FlushEmit() { emitMu.Lock(); emitW.Flush(); emitMu.Unlock() }

// RunWorkers re-executes the current binary n times with the same args and VERIF_WORKER=i/n,
// calling onLine for every emitted JSON line. Non-"@@" output is passed to stderr (truncated).
// Returns an error if any worker failed (harness error).
func RunWorkers(n int, extraEnv []string, memLimitKB int, onLine func(worker int, line []byte)) error {
	return RunShardPool(n, n, extraEnv, memLimitKB, onLine)
}

// StartEnv carries the parent's start time to the shards, so that a deadline budget is one
// deadline for the whole check and not one per shard process.
const StartEnv = "VERIF_T0"

// RunShardPool runs `shards` worker processes (VERIF_WORKER=i/shards), at most `concurrency` at a
// time. Many short-lived shards keep every process small: the real scheduler's caches, informers
// and event recorders of the thousands of cycles a shard runs are released with the process.
// PoolDeadline, if positive, bounds the time in which RunShardPool STARTS shards: a shard that would
// start later is not started at all (a started worker only finds out that the budget is exceeded after
// it has generated its family's scenarios again, which costs seconds per shard). SkippedShards counts them.
var (
	PoolDeadline  time.Duration
	SkippedShards int
)

func RunShardPool(shards, concurrency int, extraEnv []string, memLimitKB int, onLine func(worker int, line []byte)) error {
	poolStart := time.Now()
	exe, err := os.Executable()
	if err != nil {
		return err
	}
	if concurrency > shards {
		concurrency = shards
	}
	t0 := fmt.Sprintf("%s=%d", StartEnv, time.Now().UnixNano())
	var wg sync.WaitGroup
	errs := make([]error, shards)
	var cbMu sync.Mutex
	next := make(chan int)
	go func() {
		for i := 0; i < shards; i++ {
			next <- i
		}
		close(next)
	}()
	runOne := func(i int) {
		args := append([]string{}, os.Args[1:]...)
		var cmd *exec.Cmd
		if memLimitKB > 0 {
			sh := fmt.Sprintf("ulimit -v %d; exec \"$0\" \"$@\"", memLimitKB)
			cmd = exec.Command("/bin/sh", append([]string{"-c", sh, exe}, args...)...)
		} else {
			cmd = exec.Command(exe, args...)
		}
		cmd.Env = append(os.Environ(), fmt.Sprintf("%s=%d/%d", WorkerEnv, i, shards), "GOMAXPROCS=2", t0)
		cmd.Env = append(cmd.Env, extraEnv...)
		out, err := cmd.StdoutPipe()
		if err != nil {
			errs[i] = err
			return
		}
		var stderrBuf tailBuffer
		cmd.Stderr = &stderrBuf
		if err := cmd.Start(); err != nil {
			errs[i] = err
			return
		}
		sc := bufio.NewScanner(out)
		sc.Buffer(make([]byte, 1<<20), 1<<28)
		for sc.Scan() {
			line := sc.Bytes()
			if len(line) > 2 && line[0] == '@' && line[1] == '@' {
				cbMu.Lock()
				onLine(i, append([]byte{}, line[2:]...))
				cbMu.Unlock()
			}
		}
		if err := cmd.Wait(); err != nil {
			errs[i] = fmt.Errorf("worker %d: %v\n%s", i, err, stderrBuf.String())
		}
	}
	for c := 0; c < concurrency; c++ {
		wg.Add(1)
		go func() {
			defer wg.Done()
			for i := range next {
				if PoolDeadline > 0 && time.Since(poolStart) > PoolDeadline {
					cbMu.Lock()
					SkippedShards++
					cbMu.Unlock()
					continue
				}
				runOne(i)
			}
		}()
	}
	wg.Wait()
	for _, e := range errs {
		if e != nil {
			return e
		}
	}
	return nil
}

type tailBuffer struct {
	mu   sync.Mutex
	head []byte // first 4 KiB: a Go fatal error names its cause at the top of the dump
	buf  []byte
}

func (t *tailBuffer) Write(p []byte) (int, error) {
	t.mu.Lock()
	defer t.mu.Unlock()
	if room := 4096 - len(t.head); room > 0 {
		t.head = append(t.head, p[:min(room, len(p))]...)
	}
	t.buf = append(t.buf, p...)
	if len(t.buf) > 16384 {
		t.buf = t.buf[len(t.buf)-16384:]
	}
	return len(p), nil
}
func (t *tailBuffer) String() string {
	t.mu.Lock()
	defer t.mu.Unlock()
	if len(t.buf) < 16384 {
		return string(t.buf)
	}
	return string(t.head) + "\n[...]\n" + string(t.buf)
}

// Deadline support: a check given a time budget stops cleanly (exhaustive:false), never alarms.
type Budget struct {
	start time.Time
	limit time.Duration
}

func NewBudget(d time.Duration) *Budget {
	b := &Budget{start: time.Now(), limit: d}
	if v, err := strconv.ParseInt(os.Getenv(StartEnv), 10, 64); err == nil && v > 0 {
		b.start = time.Unix(0, v) // shard of a pool: the budget started when the parent did
	}
	return b
}
func (b *Budget) Exceeded() bool       { return b.limit > 0 && time.Since(b.start) > b.limit }
func (b *Budget) Elapsed() float64     { return time.Since(b.start).Seconds() }

func HashKey(s string) string {
	h := sha256.Sum256([]byte(s))
	return hex.EncodeToString(h[:8])
}
