#!/bin/bash
# Generates the O-maporder overlay: a patched copy of GOROOT internal/runtime/maps in which every
# use of the runtime random source (map hash seeds, iteration start offsets) goes through
# verifRand(), which returns a harness-owned value when VerifMapMode != 0.
# Effect: Go map iteration order becomes a deterministic function of (insertion history, seed);
# for maps <= 8 entries it is insertion order rotated by the seed.
set -euo pipefail
. /verif/scripts/env.sh
OUT=${1:-/verif/.build/overlay}
SRC=$GOROOT_VERIF/src/internal/runtime/maps
mkdir -p "$OUT/maps"
for f in table.go map.go; do
  grep -q 'rand()' "$SRC/$f" || { echo "overlay: $f no longer calls rand()" >&2; exit 2; }
  sed 's/\brand()/verifRand()/g' "$SRC/$f" > "$OUT/maps/$f"
done
cat > "$OUT/maps/verif_rand.go" <<'G'
package maps

import _ "unsafe"

// VerifMapMode / VerifMapSeed are set by the verification harness through go:linkname.
//
//go:linkname VerifMapMode
var VerifMapMode uint32

//go:linkname VerifMapSeed
var VerifMapSeed uint64

func verifRand() uint64 {
	if VerifMapMode != 0 {
		return VerifMapSeed
	}
	return rand()
}
G
cat > "$OUT/overlay.json" <<J
{"Replace": {
 "$SRC/table.go": "$OUT/maps/table.go",
 "$SRC/map.go": "$OUT/maps/map.go",
 "$SRC/verif_rand.go": "$OUT/maps/verif_rand.go"
}}
J
echo "$OUT/overlay.json"
