#!/bin/bash
# Generates the O-groupmutex overlay entry from the CURRENT /repo tree:
#   /repo/pkg/binder/binding/resourcereservation/group_mutex/group_mutex.go
# is copied with its `"sync"` import redirected to the harness shim
# `verif/mc/checks/binderrun/syncshim` (offers the whole API of package sync; its Mutex / RWMutex
# yield to the cooperative scheduler of the C17 interleaving search and are plain sync locks when no
# scheduler is installed). Nothing else in the file is touched; /repo itself is never modified.
#
# usage: gen_groupmutex.sh [base-overlay.json [out-overlay.json [out-dir]]]
#   base  default /verif/.build/overlay/overlay.json (must exist: run gen_maporder.sh first)
#   out   default = base (merged in place, atomically)
#   dir   default = dirname(out)/groupmutex  (where the patched copy is written)
# A file that does not import "sync" is used unchanged (entry removed). Exit 2 only if the import
# cannot be located unambiguously; build.sh then builds without the entry.
set -euo pipefail
BASE=${1:-/verif/.build/overlay/overlay.json}
OUT=${2:-$BASE}
DIR=${3:-$(dirname "$OUT")/groupmutex}
SRC=/repo/pkg/binder/binding/resourcereservation/group_mutex/group_mutex.go
SHIM=verif/mc/checks/binderrun/syncshim
[ -f "$BASE" ] || { echo "overlay groupmutex: base overlay $BASE missing (run gen_maporder.sh)" >&2; exit 2; }

merge() { # merge <replacement-or-empty>
python3 - "$BASE" "$OUT" "$SRC" "${1:-}" <<'P'
import json,os,sys
base,out,src,repl=sys.argv[1:5]
o=json.load(open(base))
if repl: o.setdefault("Replace",{})[src]=repl
else: o.setdefault("Replace",{}).pop(src,None)
tmp=out+".tmp.%d"%os.getpid()
json.dump(o,open(tmp,"w"),indent=1)
os.replace(tmp,out)
P
}

if [ ! -f "$SRC" ]; then echo "overlay groupmutex: $SRC missing; no entry" >&2; merge ""; echo "$OUT"; exit 0; fi
IMP='^\([[:space:]]*\)\(sync[[:space:]]\+\)\?"sync"[[:space:]]*$'
n_imp=$(grep -c "$IMP" "$SRC" || true)
if [ "$n_imp" = "0" ]; then
  echo "overlay groupmutex: $SRC does not import \"sync\"; used unchanged" >&2
  merge ""; echo "$OUT"; exit 0
fi
if [ "$n_imp" != "1" ]; then
  echo "overlay groupmutex: $SRC has $n_imp \"sync\" import lines; update /verif/overlays/gen_groupmutex.sh" >&2
  merge ""; exit 2
fi
mkdir -p "$DIR"
sed "s#$IMP#\\1sync \"$SHIM\"#" "$SRC" > "$DIR/group_mutex.go.tmp"
grep -q "sync \"$SHIM\"" "$DIR/group_mutex.go.tmp" || { echo "overlay groupmutex: rewrite failed" >&2; merge ""; exit 2; }
# the rewrite must be exactly one changed line
if [ "$(diff "$SRC" "$DIR/group_mutex.go.tmp" | grep -c '^[<>]')" != "2" ]; then
  echo "overlay groupmutex: rewrite changed more than the import line" >&2; merge ""; exit 2
fi
mv "$DIR/group_mutex.go.tmp" "$DIR/group_mutex.go"
merge "$DIR/group_mutex.go"
echo "$OUT"
