#!/bin/bash
# Generates the O-groupmutex overlay entry from the CURRENT /repo tree:
#   /repo/pkg/binder/binding/resourcereservation/group_mutex/group_mutex.go
# is copied with its single `"sync"` import redirected to the harness shim
# `verif/mc/checks/binderrun/syncshim` (API-compatible Mutex that yields to the cooperative
# scheduler of the C17 interleaving search; a plain sync.Mutex when no scheduler is installed).
# Nothing else in the file is touched; /repo itself is never modified.
#
# usage: gen_groupmutex.sh [base-overlay.json [out-overlay.json [out-dir]]]
#   base  default /verif/.build/overlay/overlay.json (must exist: run gen_maporder.sh first)
#   out   default = base (merged in place, atomically)
#   dir   default = dirname(out)/groupmutex  (where the patched copy is written)
# Fails loudly (exit 2) if group_mutex.go no longer has the expected shape.
set -euo pipefail
BASE=${1:-/verif/.build/overlay/overlay.json}
OUT=${2:-$BASE}
DIR=${3:-$(dirname "$OUT")/groupmutex}
SRC=/repo/pkg/binder/binding/resourcereservation/group_mutex/group_mutex.go
SHIM=verif/mc/checks/binderrun/syncshim
[ -f "$BASE" ] || { echo "overlay groupmutex: base overlay $BASE missing (run gen_maporder.sh)" >&2; exit 2; }
[ -f "$SRC" ] || { echo "overlay groupmutex: $SRC missing" >&2; exit 2; }
# expected shape: exactly one import line `"sync"`, every other use is sync.Mutex, and the two
# entry points the interleaving search relies on still exist.
n_imp=$(grep -c '^[[:space:]]*"sync"[[:space:]]*$' "$SRC" || true)
n_all=$(grep -o 'sync\.[A-Za-z]*' "$SRC" | sort -u | tr '\n' ' ')
if [ "$n_imp" != "1" ] || [ "$n_all" != "sync.Mutex " ] \
   || ! grep -q 'func (gm \*GroupMutex) LockMutexForGroup(' "$SRC" \
   || ! grep -q 'func (gm \*GroupMutex) ReleaseMutex(' "$SRC"; then
  echo "overlay groupmutex: $SRC no longer matches (sync imports=$n_imp, sync uses='$n_all'); update /verif/overlays/gen_groupmutex.sh and the shim" >&2
  exit 2
fi
mkdir -p "$DIR"
sed 's#^\([[:space:]]*\)"sync"[[:space:]]*$#\1sync "'"$SHIM"'"#' "$SRC" > "$DIR/group_mutex.go.tmp"
grep -q "sync \"$SHIM\"" "$DIR/group_mutex.go.tmp" || { echo "overlay groupmutex: rewrite failed" >&2; exit 2; }
# the rewrite must be exactly one changed line
if [ "$(diff "$SRC" "$DIR/group_mutex.go.tmp" | grep -c '^[<>]')" != "2" ]; then
  echo "overlay groupmutex: rewrite changed more than the import line" >&2; exit 2
fi
mv "$DIR/group_mutex.go.tmp" "$DIR/group_mutex.go"
python3 - "$BASE" "$OUT" "$SRC" "$DIR/group_mutex.go" <<'P'
import json,os,sys
base,out,src,repl=sys.argv[1:5]
o=json.load(open(base))
o.setdefault("Replace",{})[src]=repl
tmp=out+".tmp.%d"%os.getpid()
json.dump(o,open(tmp,"w"),indent=1)
os.replace(tmp,out)
P
echo "$OUT"
