# sourced by every script: offline Go toolchain for /repo (needs go 1.24.4)
export GOROOT_VERIF=/root/go/pkg/mod/golang.org/toolchain@v0.0.1-go1.24.4.linux-amd64
export GO=$GOROOT_VERIF/bin/go
export GOFLAGS=-mod=mod GOPROXY=off GOTOOLCHAIN=local GONOSUMDB=* GONOSUMCHECK=1 GOFLAGS=-mod=mod
export GOSUMDB=off
export VERIF=/verif
