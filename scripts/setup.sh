#!/bin/bash
set -euo pipefail
. /verif/scripts/env.sh
/verif/overlays/gen_maporder.sh >/dev/null
/verif/scripts/build.sh
echo setup-ok
