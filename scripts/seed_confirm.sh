#!/bin/bash
# seed_confirm.sh <ID> <SEEDED-dir> <demo-file> <demo-dest-pkg-dir> <run-regex>
# Confirms an independently produced property-breaking change in a fresh scratch worktree of /repo HEAD:
#  1. demo passes on the clean tree   2. patch applies, tree builds   3. demo fails with the patch
#  4. the existing tests of every touched component pass with the patch (demo removed)
# Writes /verif/seeded/<ID>/{patch.diff,demo/*,confirm.log} and removes the worktree.
set -u
. /verif/scripts/env.sh
ID=$1; SRC=$2; DEMO=$3; DEST=$4; RX=$5
WT=/tmp/sc-$ID
OUT=/verif/seeded/$ID
mkdir -p $OUT/demo
cp $SRC/patch.diff $OUT/patch.diff
cp $SRC/$DEMO $OUT/demo/
[ -f $SRC/README.md ] && cp $SRC/README.md $OUT/demo/README.agent.md
LOG=$OUT/confirm.log; : > $LOG
git -C /repo worktree remove --force $WT >/dev/null 2>&1
git -C /repo worktree add --detach $WT HEAD >>$LOG 2>&1 || { echo "worktree failed"; exit 2; }
cd $WT
cp $SRC/$DEMO $DEST/
echo "== demo on clean tree" >>$LOG
$GO test -vet=off -count=1 -run "$RX" ./$DEST/ >>$LOG 2>&1; clean=$?
git apply $OUT/patch.diff >>$LOG 2>&1 || { echo "patch does not apply"; clean=99; }
echo "== build with patch" >>$LOG
$GO build ./... >>$LOG 2>&1; build=$?
echo "== demo with patch" >>$LOG
$GO test -vet=off -count=1 -run "$RX" ./$DEST/ >>$LOG 2>&1; patched=$?
rm -f $DEST/$(basename $DEMO)
comps=$(grep '^+++ b/' $OUT/patch.diff | sed 's#^+++ b/##' | awk -F/ '{print $1"/"$2}' | sort -u)
suite=0
for c in $comps; do
  echo "== existing tests ./$c/... with patch" >>$LOG
  $GO test -vet=off -count=1 -timeout 25m ./$c/... 2>&1 | grep -v "no test files" > $OUT/.suite.$$; cat $OUT/.suite.$$ >>$LOG
  failing=$(grep -E "^(FAIL|---)" $OUT/.suite.$$ | grep -E "^FAIL\s" | awk '{print $2}' | sort -u)
  if [ -n "$failing" ]; then
    # a package that fails identically on the clean tree (envtest binaries are not installed here) is not the patch's doing
    git apply -R $OUT/patch.diff
    for pkg in $failing; do
      echo "== failing package $pkg on the CLEAN tree" >>$LOG
      if $GO test -vet=off -count=1 -timeout 25m $pkg >>$LOG 2>&1; then suite=1; echo "   passes clean => the patch breaks an existing test" >>$LOG; else echo "   fails on the clean tree too (environmental)" >>$LOG; fi
    done
    git apply $OUT/patch.diff
  fi
  rm -f $OUT/.suite.$$
done
cd /; git -C /repo worktree remove --force $WT; rm -rf $WT
echo "SEED $ID: demo-clean-exit=$clean build-exit=$build demo-patched-exit=$patched existing-tests-exit=$suite components=[$(echo $comps)]" | tee -a $LOG
[ $clean -eq 0 ] && [ $build -eq 0 ] && [ $patched -ne 0 ] && [ $suite -eq 0 ]
