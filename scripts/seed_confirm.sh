#!/bin/bash
# seed_confirm.sh <ID> <SEEDED-dir> <demo-file> <demo-dest-pkg-dir> <run-regex>
# Confirms an independently produced property-breaking change in a fresh scratch worktree of /repo HEAD:
#  1. demo passes on the clean tree   2. patch applies, tree builds   3. demo fails with the patch
#  4. the existing tests of every touched component pass with the patch (demo removed)
# Writes /verif/seeded/<ID>/{patch.diff,demo/*,confirm.log} and removes the worktree.
set -u
. /verif/scripts/env.sh
ID=$1; SRC=$2; DEMO=$3; DEST=$4; RX=$5
WT=/tmp/sc-$ID
OUT=/verif/seeded/$ID
mkdir -p $OUT/demo
cp $SRC/patch.diff $OUT/patch.diff
cp $SRC/$DEMO $OUT/demo/
[ -f $SRC/README.md ] && cp $SRC/README.md $OUT/demo/README.agent.md
LOG=$OUT/confirm.log; : > $LOG
git -C /repo worktree remove --force $WT >/dev/null 2>&1
git -C /repo worktree add --detach $WT HEAD >>$LOG 2>&1 || { echo "worktree failed"; exit 2; }
cd $WT
cp $SRC/$DEMO $DEST/
echo "== demo on clean tree" >>$LOG
$GO test -vet=off -count=1 -run "$RX" ./$DEST/ >>$LOG 2>&1; clean=$?
git apply $OUT/patch.diff >>$LOG 2>&1 || { echo "patch does not apply"; clean=99; }
echo "== build with patch" >>$LOG
$GO build ./... >>$LOG 2>&1; build=$?
echo "== demo with patch" >>$LOG
$GO test -vet=off -count=1 -run "$RX" ./$DEST/ >>$LOG 2>&1; patched=$?
rm -f $DEST/$(basename $DEMO)
comps=$(grep '^+++ b/' $OUT/patch.diff | sed 's#^+++ b/##' | awk -F/ '{print $1"/"$2}' | sort -u)
suite=0
for c in $comps; do
  echo "== existing tests ./$c/... with patch" >>$LOG
  $GO test -vet=off -count=1 -timeout 25m ./$c/... 2>&1 | grep -v "no test files" >>$LOG; [ ${PIPESTATUS[0]} -ne 0 ] && suite=1
done
cd /; git -C /repo worktree remove --force $WT; rm -rf $WT
echo "SEED $ID: demo-clean-exit=$clean build-exit=$build demo-patched-exit=$patched existing-tests-exit=$suite components=[$(echo $comps)]" | tee -a $LOG
[ $clean -eq 0 ] && [ $build -eq 0 ] && [ $patched -ne 0 ] && [ $suite -eq 0 ]
