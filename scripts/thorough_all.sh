#!/bin/bash
# runs every thorough check sequentially (niced) from a PRIVATE copy of the freshly built binary, with
# evidence/replays redirected to a scratch dir, so neither the committed quick-tier evidence nor later
# rebuilds interfere; one line per check
out=${THOROUGH_OUT:-/var/tmp/thorough-out}; mkdir -p $out/evidence
cd /verif
scripts/build.sh || exit 2
cp /verif/.build/check $out/check
for id in ${@:-C11 C17 C13 C14 C12 C01 C02 C03 C04 C05 C06 C07 C08 C15 C16 C18 C20 C10 C19 C09}; do
  s=$(date +%s)
  VERIF_KEYS=all VERIF_OUT=$out nice -n 10 $out/check $id --tier thorough > $out/thorough-$id.log 2>&1; rc=$?
  echo "$id exit=$rc $(( $(date +%s)-s ))s viol=$(grep -c '^VIOLATION' $out/thorough-$id.log) known=$(grep -c '^KNOWN-FINDING' $out/thorough-$id.log)"
done
