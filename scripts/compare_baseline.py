#!/usr/bin/env python3
"""Compares a `go test -json` log with /root/.vp/BASELINE.json stable_pass: every stable test must pass."""
import json,sys
base=json.load(open('/root/.vp/BASELINE.json'))
stable=set(base['stable_pass'])
status={}
for line in open(sys.argv[1], errors='replace'):
    line=line.strip()
    if not line.startswith('{'): continue
    try: e=json.loads(line)
    except Exception: continue
    if e.get('Test') and e.get('Action') in ('pass','fail','skip'):
        status[e['Package']+'::'+e['Test']]=e['Action']
missing=[t for t in stable if status.get(t)!='pass']
print('stable:',len(stable),'passed now:',sum(1 for t in stable if status.get(t)=='pass'),'not passing:',len(missing))
for t in sorted(missing)[:40]: print('  ',status.get(t,'absent'),t)
sys.exit(1 if missing else 0)
