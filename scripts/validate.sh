#!/bin/bash
# validates MANIFEST.json and all evidence files against the schemas
python3-vt - <<'P'
import json,jsonschema,glob,sys
jsonschema.validate(json.load(open('/verif/MANIFEST.json')),json.load(open('/root/.vp/MANIFEST.schema.json')))
es=json.load(open('/root/.vp/EVIDENCE.schema.json'))
bad=0
for f in sorted(glob.glob('/verif/evidence/C*.json')):
    try: jsonschema.validate(json.load(open(f)),es)
    except Exception as e: print('BAD',f,str(e)[:300]); bad=1
print('valid' if not bad else 'INVALID'); sys.exit(bad)
P
