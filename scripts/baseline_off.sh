#!/bin/bash
# Runs the repository's own test suite with the verif guard OFF (no -tags verif).
set -uo pipefail
. /verif/scripts/env.sh
cd /repo
$GO test -mod=mod -json -vet=off -count=1 -timeout 25m ./...
rm -f /repo/test/e2e/scale/kwok_scale_test.json  # artefact the e2e scale test writes into the tree
