#!/usr/bin/env python3
"""Generates /verif/MANIFEST.json from the table below (kept valid at all times)."""
import json, subprocess

CHECKS = {
 "C01": dict(engine="clustermc", cat="model_checking", ref="§5 C01",
   text="Explicit-state search over cluster worlds: every transition is a REAL scheduler cycle (cache.New+OpenSession+actions+CloseSession on fake clientsets) or an atomic environment event; after every cycle, per node, requests of occupying pods (running, terminating, bound, being bound) plus this cycle's binds are recomputed from pod specs and compared with node allocatable (cpu, memory, pod slots, whole GPUs, extended resources). Bind/evict API faults derived from each cycle's decisions are injected (singles quick, pairs thorough).",
   note="Trusted: client-go fake trackers + 3 reactors (graceful pod delete, status sub-resource, injected faults), the environment events (bind completes, pod terminates), the ~300-line reference request calculator. Small scope: <=3 nodes, <=4 workloads, depth 3/4.",
   technique="explicit-state model checking of the implementation (BFS over canonical cluster worlds, real scheduler cycle as transition relation, exhaustive derived fault sets)"),
 "C02": dict(engine="clustermc", cat="model_checking", ref="§5 C02",
   text="Same engine as C01 on the *share* grammar (fraction .3/.5/.7, gpu-memory, multi-fraction, whole-GPU requests against running / terminating / binding sharers on 1-2 GPU nodes with and without the gpu.memory label): after every real cycle, per physical device (GPU group) the demand of all attached pods plus this cycle's binds is recomputed from annotations and compared with the device; whole + shared devices <= node GPU count; N-device requests get N distinct groups; groups never span nodes.",
   note="Trusted: as C01; the environment labels bound consumers exactly as the binder does (plain label for 1 device, runai-gpu-group/<g> for multi-device).",
   technique="explicit-state model checking of the implementation (BFS over canonical cluster worlds, real scheduler cycle as transition relation)"),
 "C03": dict(engine="clustermc", cat="model_checking", ref="§5 C03",
   text="Explicit-state search (real scheduler cycles + environment events, depth 3) on the *gang* grammar (flat gangs, elastic surplus, 2 pod sets, nested pod sets, half-running gangs, victims that are gangs / elastic) at fill levels that force allocate, pipelining on terminating capacity, reclaim, preempt and consolidation. Oracle per fault-free cycle from world objects + decision log: a job with any bind ends with every leaf pod set >= min (active before - evicted + bound); a job with evictions (not stale-gang) is either >= min in every touched pod set or has no active pod left.",
   note="Trusted: as C01. Active = non-terminating pod with nodeName or live BindRequest. API write failures excluded as in the statement.",
   technique="explicit-state model checking of the implementation (BFS over canonical cluster worlds, real scheduler cycle as transition relation)"),
 "C06": dict(engine="clustermc", cat="model_checking", ref="§5 C06",
   text="Explicit-state search on the *victims* grammar: full nodes of running workloads over {preemptible, non-preemptible by priority or explicit field} x priority x 3 leaf queues in 2 departments x last-start {absent, old, recent} x elastic/gang, 4 min-runtime placements (leaf / parent / LCA child, preempt and reclaim), 1-2 pending preemptors; every Evict decision is checked against a reference implementation of the documented eligibility rules (preemptibility, min-runtime resolution incl. LCA, same-queue+strictly-lower priority for preempt, other queue for reclaim, preemptor placed in the same cycle, consolidation victim re-placed elsewhere).",
   note="Trusted: as C01; min-runtimes are 0 or 1000h and last-start stamps years old or written during the run, so the wall clock cannot flip protection.",
   technique="explicit-state model checking of the implementation (BFS over canonical cluster worlds, real scheduler cycle as transition relation)"),
 "C08": dict(engine="clustermc", cat="model_checking", ref="§5 C08",
   text="Explicit-state search on the *limits* grammar: 6 queue trees (2-3 levels; GPU limits 0/0.5/1/2/unlimited on leaves and ancestors, quotas 0/1/unlimited, a CPU limit) x whole / fractional / gpu-memory / multi-fraction / elastic / gang / non-preemptible workloads, depth 3 (elastic growth across cycles). Oracle: per queue and ancestor and resource, allocation (occupying + bound + nominated - evicted, replayed sequentially over the decision log) recomputed from pod specs; violation iff a decision raised it above the limit, or raised the non-preemptible part above the deserved quota.",
   note="Trusted: as C01. gpu-memory requests are converted with the exact node ratio (a lower bound of what the scheduler charges), terminating pods are not counted as allocation.",
   technique="explicit-state model checking of the implementation (BFS over canonical cluster worlds, real scheduler cycle as transition relation)"),
 "C15": dict(engine="clustermc", cat="model_checking", ref="§5 C15",
   text="Closed-system macro steps (real cycle; all binds complete; every evicted/terminating pod is recreated as pending with a later creation time) from every world of the *closed* grammar (1-2 nodes, 3 queue trees, 2-3 workloads incl. gangs, elastic, fractions, priorities) x 5 scheduler settings (consolidation on/off, consolidating reclaim, saturation multiplier 1.2, spread), run until the canonical world repeats or 10 steps; a repeated canonical world with >= 1 eviction in between is a livelock (lasso).",
   note="Trusted: as C01 plus the closed-system environment (recreate keeps the pod name/spec, strips placement). Step cap hit => exhaustive:false, not a violation.",
   technique="explicit-state model checking of the implementation with lasso detection on the canonical cluster state"),
 "C16": dict(engine="clustermc", cat="model_checking", ref="§5 C16",
   text="Explicit-state search on the *order* grammar: a class of 2-3 identical pending workloads in one leaf queue in every priority/creation-order sequence (5 shapes incl. gang, fraction, non-preemptible) x 5 competitor sets in other queues x flat and 2-level queue trees x capacity for fewer than all, under map-iteration seeds 0-3 (heap order / reorder paths), signatures on, spread. Oracle from world objects + decisions made during the allocate action: no comparable pair with the lower-priority (or younger) one placed and the higher (older) one unplaced.",
   note="Trusted: as C01; Go map order is owned through the O-maporder overlay (small maps iterate in insertion order rotated by the seed).",
   technique="explicit-state model checking of the implementation (BFS over canonical cluster worlds, real scheduler cycle as transition relation, map-order seeds enumerated)"),
 "C10": dict(engine="clustermc", cat="model_checking", ref="§5 C10",
   text="Bounded-exhaustive enumeration of malformed / adversarial API object graphs, each run through ONE real scheduler cycle: every parent function on 3 queues over {root,q0,q1,q2,missing} (cycles, self-parents, orphans) x 2 workload placements; every sub-group parent graph on 3 sub-groups x minMember {-1,0,1,5}; duplicate / case-differing sub-group names, missing queues; 3 GPU annotations x 29 malformed literals x {pending,running}; 16 malformed nodes x 4 workloads; dangling references; each in a roomy variant (the untouched healthy workload must be bound) and a tight variant (reclaim/preempt run on the malformed objects; must complete). Worker processes with a CPU-time watchdog (10 s) and ulimit -v; a dead worker is attributed to the in-flight input and restarted after it.",
   note="Trusted: fake clientsets, the per-input CPU-time budget (not wall clock), one cycle per input with default actions/plugins.",
   technique="bounded-exhaustive state enumeration with the real scheduler cycle as the transition (termination/panic oracle under resource limits)"),
 "C12": dict(engine="clustermc", cat="model_checking", ref="§5 C12",
   text="Scheduler half of the hand-off, explicit-state: pods in every BindRequest progress state (not started, Failed k times with BackoffLimit nil/0/1/3, pod bound but request not updated, Succeeded, selected node deleted) x 5 shapes (whole, 2-GPU, fraction, multi-fraction, cpu) x competitors for the same capacity; BFS depth 3 over real cycles and environment events (bind completes / fails again, pod terminates, node deleted). Oracle: with the pod charged to its selected node (groups included) the C01/C02 inequalities hold in every later cycle; requests that are terminally failed or name a deleted node are gone after the next cycle and their pod is bound/nominated again when it fits. Binder half: on the REAL BindRequestReconciler (C11 wiring) 3 pod kinds x BackoffLimit {nil,0,1,2,3} x 2 failing call sites x every fail/ok schedule of length <= 5 (7 thorough): after every failed attempt the persisted failedAttempts = min(#failures, limit), the phase is Failed, and the scheduler's IsFailed() holds exactly once the limit is reached; a fault-free attempt ends Succeeded.",
   note="Trusted: as C01 and C11 (intercepted fake client). In the cluster search the environment event bindFail models a failed attempt; the binder half runs the real reconciler.",
   technique="explicit-state model checking of the implementation (BFS over canonical cluster worlds, real scheduler cycle as transition relation)"),
 "C19": dict(engine="inputmc", cat="exploration", ref="§5 C19",
   text="Bounded-exhaustive input enumeration: every string of length <= 4 (quick) / <= 5 (thorough) over an 18-character alphabet plus 91 boundary literals, as each of gpu-fraction / gpu-memory / gpu-fraction-num-devices, crossed with presence combinations of the other annotations, GPU limits on container / init container, named fraction container {absent, regular, init, missing} and sharing enabled/disabled (4.3M pods quick, 77M thorough). Every pod runs through the REAL admission mutator (twice) and validator, scheduler NewTaskInfo, binder validator and helpers, pod-group-controller extractors; one representative per accepted class additionally through a real scheduler cycle and the binder gpusharing PreBind. Oracle: an exact big.Rat reference parser and the six agreement clauses of the statement.",
   note="Trusted: the reference parser (~150 lines), the fake client used for the end-to-end stage. Values outside the alphabet / longer than the bound are not explored.",
   technique="bounded-exhaustive input enumeration against a reference model (real admission, scheduler, binder and controller parsers on every input)"),
 "C14": dict(engine="clustermc", cat="model_checking", ref="§5 C14",
   text="In-session ground-truth recomputation at EVERY step of every explored real cycle: a monitor plugin (last in the tier list) registers an Allocate/Deallocate event handler and probes after each action; at each of these points every node's Used / Idle / Releasing (cpu, memory, whole GPUs), per-device used/allocated/releasing memory and pod membership, every workload's Allocated, status index, active counter and pod-set counters, and every queue's allocated amount up the parent chain are recomputed from the pods and their statuses and compared with what the session believes; vector and structured representations are compared. Runs over the share, gang and victims grammars (4065 initial worlds, depth 2, ~16k cycles, every solver simulation step inside them).",
   note="Trusted: the recomputation (closed forms for cpu/memory/whole GPUs without sharers and per-device memory; for whole-GPU counters of nodes with sharers a differential rebuild of a fresh NodeInfo from the same pods in two orders), the event tracker that supplies the deliberately double-kept 'releasing instance' of a fractional pod moved between devices of one node. Queue values are read through ssn.QueueAllocatedResources (whole GPUs only above 1, mirrored in the oracle).",
   technique="explicit-state model checking of the implementation with in-session invariant evaluation at every simulation step (event-handler probe)"),
 "C09": dict(engine="inputmc", cat="exploration", ref="§5 C09",
   text="Bounded-exhaustive enumeration of sibling queue sets for the REAL resource_division.SetResourcesShare: n=1,2 full lattice and n=3 sub-lattices (totals, deserved incl. unlimited, limit, over-quota weight incl. 0, priority, request, historical usage, k) evaluated under every insertion order of the queue map (the harness owns Go map order) plus seeds and tie-break variants (33M evaluations quick), and 150k queue trees of 2-3 levels through the real proportion plugin; the laws of the statement (lower bound, upper bound, surplus conservation, surplus left only if all weighted queues satisfied, priority dominance up to rounding, weight monotonicity, children within parent, order independence) are checked on every result.",
   note="Trusted: the law implementations (written from docs/fairness, weakest reading where the docs are silent; assumptions listed in evidence), the map-order overlay. Values outside the lattice are not explored; internal deadline => exhaustive:false.",
   technique="bounded-exhaustive input enumeration with all map-iteration orders against algebraic laws"),
 "C13": dict(engine="clustermc", cat="model_checking", ref="§5 C13",
   text="Inside REAL sessions (4 bases opened through the real snapshot path with all plugins registered: whole + fractional victims, a device shared by running / terminating sharers, a 2-node gang, elastic + gpu-memory) EVERY well-formed sequence of length <= 5 (quick) / 6 (thorough) of the operations the actions issue on a Statement {AllocateJob real, AllocateJob pipeline-only, Evict, Unevict, Checkpoint, Rollback(cp_i), ConvertAllAllocatedToPipelined} is executed and discarded; the canonical dump of the scheduler's view (node counters + vectors + pods + per-device maps, per-task status/node/groups/virtual flag/claims, job and pod-set counters, queue usage) after Discard must equal the dump before, and after Rollback the dump at the checkpoint (60k sequences, 370k operations quick). Commit clause: over ~3.5k real cycles of the gang and victims grammars no pod is bound or evicted twice in one cycle.",
   note="Trusted: the dump (pending tasks' scratch device choice is excluded; queue GPUs are printed only below 1 because the accessor truncates), well-formedness = enabled in the live state + conversion only on eviction-free statements (as the allocate action does).",
   technique="exhaustive bounded enumeration of operation sequences on the real session with a differential (state-before == state-after) oracle"),
 "C11": dict(engine="ctrlmc", cat="fault_enumeration", ref="§5 C11",
   text="Stateless DFS over choice sequences on the REAL BindRequestReconciler + Binder + resource-reservation service + GPUSharing and DRA plugins over an intercepted controller-runtime fake client: every client call is a numbered choice point whose answers are ok / err (not applied) / crash (store frozen, fresh process image + startup Sync for recovery) / lost (applied but reported failed; thorough). All executions with 0, 1 and 2 deviations for 8 pod kinds (whole GPU, fraction new/existing group, gpu-memory, multi-fraction, named init container, DRA, fraction+DRA) and chained start states (6.4k executions quick, 80k thorough). Oracle after the faulty attempt and after recovery to fixpoint: bound only to the selected node, at most one binding call, no-op on Succeeded/bound, Failed reported, no side effect left on an unbound pod, side objects exact after recovery, C17 invariant.",
   note="Trusted: the intercepted fake client incl. a ~20-line emulation of the pods/binding sub-resource and pre-filled watch answers; live reads (no informer staleness).",
   technique="exhaustive fault/crash-point enumeration (deviation-bounded stateless search over API-call choice points of the real reconciler)"),
 "C17": dict(engine="ctrlmc", cat="model_checking", ref="§5 C17",
   text="(i) Explicit-state search over event histories (depth 5 quick / 7 thorough) on the REAL binder: binds, binds failing at a chosen call, consumer completion / deletion followed by the real pod-controller handler, BindRequest deletion followed by its real handler, crashes between reservation-pod creation and consumer labelling followed by the startup Sync; (ii) stateless DFS over interleavings of 2-3 goroutines each running a real entry point (reconcile/ReserveGpuDevice, SyncForGpuGroup/SyncForNode, pod and BindRequest delete handlers) on the same GPU group under a cooperative scheduler with scheduling points at every client call and every group-mutex Lock/Unlock (O-groupmutex overlay), preemption bound 2 (3 thorough), deadlock detection, schedule replay. Oracle at every quiescent state: <= 1 reservation pod per group, reservation exists iff a live consumer carries the group, no running consumer without reservation, consumers' device index = reservation pod's index.",
   note="Trusted: as C11 plus the mutex shim (single import substitution checked at build time). Goroutine switches only at the instrumented points; a free-running -race pass is not built.",
   technique="explicit-state search over event histories + preemption-bounded interleaving exploration of the real binder code under a cooperative scheduler"),
 "C18": dict(engine="ctrlmc", cat="model_checking", ref="§5 C18",
   text="Explicit-state search over reconcile orders and histories on the REAL pod-grouper PodReconciler with the real plugin hub (20 owner chains over 12 kinds incl. skip-top-owner, 1-3 sibling pods): every permutation of first reconciles followed by repeat passes, every replica subset, and BFS (depth 6 quick / 7 thorough) over reconciles interleaved with foreign updates of the PodGroup (queue, markUnschedulable, schedulingBackoff, node-pool label, scheduler annotations/status); each permutation also under a different Go map order. Oracles: documented grouping partition, differential equality of the final PodGroups across all orders/repeats/replica subsets, zero mutating client calls when nothing changed, foreign-owned fields preserved.",
   note="Trusted: controller-runtime fake client (JSON round trip), counting interceptor, informer-cache emulation; reconciles are atomic (no thread interleavings).",
   technique="explicit-state search over reconcile orders / foreign-update histories of the real controller with differential and write-count oracles"),
 "C07": dict(engine="clustermc", cat="model_checking", ref="§5 C07",
   text="Explicit-state search on the *reclaim* grammar: 7 queue trees (flat / 2-level / 3-level; quotas 0/1/2, over-quota weights 1/2, queue priorities, a limit) x running workloads placing queues under / at / over quota and fair share x reclaimers (1 GPU, 2-GPU gang, fraction, non-preemptible) on 1-2 nodes, saturation multiplier 1 and 1.5, depth 2. A monitor plugin reads each queue's fair share inside the real session (cpu/memory through Session.QueueFairShare, GPUs through the exact queue_fair_share_gpu gauge); the oracle replays the decision log with allocations recomputed from pod specs and checks, per committed reclaim statement: no queue within its deserved quota (taken at the level where it diverges from the reclaimer) is net-reduced; the reclaiming queue stays within its fair share; a non-preemptible reclaimer stays within deserved quota at every level; the reclaimer's side of the diverging pair does not end above its fair share and at least as saturated as the queue it took from.",
   note="Trusted: as C01; the fair-share numbers themselves are the scheduler's (C09 judges them). Vacuity guard: >= 100 reclaim statements, >= 10 across departments, fair-share data present in every cycle.",
   technique="explicit-state model checking of the implementation (BFS over canonical cluster worlds, real scheduler cycle as transition relation, in-session probe for fair shares)"),
 "C20": dict(engine="ctrlmc", cat="model_checking", ref="§5 C20",
   text="Explicit-state search over histories on the REAL PodGroupReconciler, QueueReconciler and operator DeployableOperands.Deploy over controller-runtime fake clients. Part A: all histories (depth 5 quick / 6 thorough) of pod add / bind / phase change / delete, preemptibility flips of the group (priority class, explicit field) and reconciles, plus a full grid of 1-3 pods over phase x scheduled condition x nodeName x 7 request kinds x 9 preemptibility sources; Part B: 65 (121 thorough) queue forests up to 3 levels with histories of pod-group status changes, add/delete, re-parenting and reconciles in every order incl. parent before child; Part C: all 256 subsets of operator service switches x start states {empty, seeded, foreign objects, deployed(C1)} and C1->C2 changes. Oracle at every fixpoint: pod-group requested/allocated/allocatedNonPreemptible = reference sums over its pods by phase and CURRENT preemptibility; queue status = sums over pod groups and child queues at every level; one more reconcile changes no object; Deploy(C2) after Deploy(C1) equals Deploy(C2) from scratch and a repeated Deploy changes no object.",
   note="Trusted: fake clients, reference sums on resource.Quantity, reduced schemes. Not covered: ConfigReconciler.Reconcile status conditions / SchedulingShard reconciler (need a manager). API writes that leave objects semantically unchanged are counted, not alarmed (the statement is about object contents).",
   technique="explicit-state search over event/reconcile histories of the real controllers with reference-sum and differential fixpoint oracles"),
 "C05": dict(engine="clustermc", cat="model_checking", ref="§5 C05",
   text="Explicit-state search on the *progress* grammar. (i) Work conservation: 1-3 nodes, <= 3 (4 thorough) workloads from a menu of whole-GPU / 2-GPU / cpu / single-fraction requests, gangs of 2-3, elastic, half-running gangs, non-preemptible jobs, over 3 queue trees with limits and non-preemptible quotas, configs {binpack, spread} x {consolidation on/off} x {scheduling signatures on/off} x a map seed; after the allocate action every still-pending ready workload is handed to a brute-force packer (all assignments of its missing-to-min pods to nodes over idle capacity recomputed from the world + allocate's binds and nominations, reference limit / quota rules): an assignment existing is a violation. (ii) Displacement: interchangeable single-pod 1-GPU workloads on full nodes, one pending workload, 3 queue trees x 7 victim sets x 5 pending kinds: the pending workload must be bound or nominated within the cycle when a strictly lower-priority preemptible workload of its queue runs, or when it stays within deserved quota and preemptible pods of over-quota queues run.",
   note="Trusted: the packer models cpu, memory, pod slots, whole GPUs and single-device fractions exactly; gpu-memory, multi-fraction, MIG and topology-constrained jobs are outside this grammar. Terminating and nominated capacity is treated as not idle (conservative).",
   technique="explicit-state model checking of the implementation with a brute-force reference packer as the work-conservation oracle"),
 "C04": dict(engine="clustermc", cat="model_checking", ref="§5 C04",
   text="Explicit-state search on the *constr* grammar: (a) 4 node layouts over a 2-key label space with NoSchedule / NoExecute / PreferNoSchedule taints, cordoned and NotReady nodes x workloads with nodeSelector, required node affinity (In / NotIn / Exists), tolerations (Equal / Exists), required pod anti-affinity and affinity on hostname and zone keys (own terms and terms of pods already placed, incl. pods placed earlier in the same cycle), pre-placed and terminating pods, fill states that force reclaim / preempt / consolidation; (b) topologies of 1-3 levels, unbalanced, nodes missing labels x required / preferred / nested sub-group constraints, unknown topology, half-running and elastic gangs x 5 fill states; (c) node-pool partitions. Every bind and nomination is checked by reference predicates written from the Kubernetes API semantics against node objects and the pods on them; required topology scopes (group and every sub-group) must end in one domain at the required and all coarser levels.",
   note="Trusted: ~400 lines of reference predicates (only the operators of the grammar); constraints against pods that are terminating or evicted in the same cycle are deliberately not enforced. CSI storage and DRA constraints are outside the grammar.",
   technique="explicit-state model checking of the implementation (BFS over canonical cluster worlds, real scheduler cycle as transition relation) with reference predicates as oracle"),
}

# what later strengthening rounds added to each check (appended to the level text)
ADDENDA = {
 "C01": "Also explored: the share grammar's worlds with a terminating sharer, judged by the per-device clauses too (fractional capacity that is only terminating must not be handed to a bind).",
 "C02": "Also explored: fractional gangs next to single sharers with every single bind failing in turn (a failed bind inside a statement must not free what its earlier binds occupy); fractional gangs whose members are pinned to different nodes, one of them with terminating capacity only, followed by whole-GPU and fractional pods in every creation order.",
 "C03": "Menu includes elastic gangs with minimum 2 (with / without a terminating member); keys of violations in which a solver evicted AND re-nominated members carry moved-pods=<n>.",
 "C04": "Topology grammar includes elastic workloads with nothing running yet and domains with only terminating capacity.",
 "C05": "Workloads partly placed by allocate in the cycle are judged for what they still have unplaced; displacement is judged net of the victim (queues shared by victim and reclaimer do not grow), with department trees whose limit = quota = usage; elastic workloads whose first round is only nominated.",
 "C07": "Also explored: several reclaimers of one department per cycle (4-6 workloads), queue trees whose leaves sit at different depths (pinned pods).",
 "C08": "Also explored: elastic victims with a terminating pod and gangs below their minimum with a running member, inside queues at their limit / quota.",
 "C10": "Every malformed input also runs under a second scheduler configuration; project-level fairness (fullHierarchyFairness=false) with user queues named like the generated parent; the sweep stops after 12 confirmed worker deaths (exhaustive:false then).",
 "C11": "Every single-deviation execution is also continued with 'the scheduler replaces the still unbound pod's BindRequest by one selecting other GPU groups' before the fault-free recovery; pod kind with a SHARED DRA claim (already reserved for another consumer).",
 "C12": "A small family (repeated hand-off failures) is explored on ONE scheduler cache that lives across all cycles and environment events of a path (schedrun.RunPath), so that what the cache remembers between cycles takes part.",
 "C13": "Every sequence ending with [evict(t); unevict(t)] is additionally judged as an inverse pair (view after == view before the pair); base with running fractional pods on two nodes.",
 "C15": "Also explored: a pending gang of 2-3 against ONE elastic job of 3-4 pods with pinned filler jobs (96 closed systems).",
 "C16": "Priority classes at both ends of the legal value range; 5-6 jobs against queueDepthPerAction 3 / 4 with six push orders.",
 "C17": "Interleaving programs include environment events that are IN FLIGHT (the consumer completes / is deleted as the first step of the handler thread, i.e. possibly after the bind's node-wide sync).",
 "C18": "Histories include the environment event 'owner-relabelled' (the workload's top owner changes), so that a reconcile after a foreign update has a legitimate difference to write.",
 "C19": "Every pod of the grid is also sent through the real ValidateUpdate as an annotation-only update of its accepted annotation-free twin; the verdict must equal ValidateCreate's.",
 "C20": "Operator part: a second non-switch configuration variant (global nodeSelector, tolerations, security context) in the C1 -> C2 differential.",
}
for _k, _v in ADDENDA.items():
    CHECKS[_k]["text"] += " " + _v

NOT_APPLICABLE = []
ALL = ["C%02d" % i for i in range(1, 21)]

def main():
    hooks = subprocess.run(["git", "-C", "/repo", "log", "--format=%H", "--grep=verif-tagged"], capture_output=True, text=True).stdout.split()
    m = {
        "version": 1,
        "setup_cmd": "/verif/scripts/setup.sh",
        "hooks": {
            "guard": "verif",
            "enable": "go build -tags verif (scripts/build.sh builds the harness module with `replace github.com/NVIDIA/KAI-scheduler => /repo`)",
            "baseline_off_cmd": "/verif/scripts/baseline_off.sh",
            "source_commits": hooks,
            "add_only": True,
        },
        "engines": [
            {"name": "clustermc", "path": "mc/clustermc", "serves_properties": [k for k, v in CHECKS.items() if v["engine"] == "clustermc"],
             "kind_free_text": "explicit-state BFS over canonical cluster worlds; transitions = real scheduler cycles (per config / map seed / API-fault set) + environment events"},
            {"name": "ctrlmc", "path": "mc/ctrlmc", "serves_properties": [k for k, v in CHECKS.items() if v["engine"] == "ctrlmc"],
             "kind_free_text": "stateless DFS over choice sequences on real controllers: API-call fault/crash points (deviation-bounded), cooperative-scheduler interleavings, reconcile orders"},
            {"name": "inputmc", "path": "mc/inputmc", "serves_properties": [k for k, v in CHECKS.items() if v["engine"] == "inputmc"],
             "kind_free_text": "bounded-exhaustive enumeration of inputs / operation sequences against reference laws"},
        ],
        "checks": [],
        "not_applicable": [],
        "notes": "All checks: /verif/scripts/check.sh <id> <tier>; exit 0 held, 1 VIOLATION, 2 harness error. Known findings in /verif/known_findings.json.",
    }
    for pid in ALL:
        if pid in CHECKS:
            c = CHECKS[pid]
            m["checks"].append({
                "property_id": pid,
                "quick_cmd": f"/verif/scripts/check.sh {pid} quick",
                "thorough_cmd": f"/verif/scripts/check.sh {pid} thorough",
                "evidence_file": f"/verif/evidence/{pid}.json",
                "replay_cmd_template": f"/verif/scripts/check.sh {pid} quick --replay {{path}}",
                "engine": c["engine"],
                "level_claimed": {"category": c["cat"], "text": c["text"], "design_ref": c["ref"]},
                "level_note": c["note"],
                "technique": c["technique"],
            })
        else:
            reason = dict(NOT_APPLICABLE).get(pid, "check not built yet in this session (planned: see DESIGN.md §5); not claimed until its machinery exists")
            m["not_applicable"].append({"property_id": pid, "reason": reason})
    json.dump(m, open("/verif/MANIFEST.json", "w"), indent=1)
    print("checks:", len(m["checks"]), "n/a:", len(m["not_applicable"]))

main()
