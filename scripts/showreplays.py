#!/usr/bin/env python3
import json,glob,sys
for f in sorted(glob.glob('/verif/evidence/replays/%s-*.json'%sys.argv[1])):
    v=json.load(open(f))
    print(f); print(' KEY',v['key']); print('  ',v['message'][:700])
    r=v.get('replay') or {}
    if 'path' in r:
        print('  ',r['scenario'], [ (s.get('event') or ('cycle['+(s['cfg'].get('Placement') or '')+('|faults='+','.join(sorted(s['cfg']['Faults'])) if s['cfg'].get('Faults') else '')+']')) for s in r['path']]); print('  ',r.get('decisions_of_failing_cycle'))
