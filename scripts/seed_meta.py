#!/usr/bin/env python3
"""seed_meta.py <seed-id> <property> <caught:true|false> <strengthening_needed:true|false> key=value ...
writes /verif/seeded/<seed-id>/meta.json (keys: change needs demo before after strengthening origin)"""
import json,sys
sid,prop,caught,sn=sys.argv[1:5]
kv=dict(a.split('=',1) for a in sys.argv[5:])
m={"property":prop,"round":int(sid.split("-r")[1]) if "-r" in sid else 1,
 "origin":kv.get("origin","independent sub-agent (round 2) given only the property text, the site of the round-1 change to avoid, and its own scratch worktree (/tmp/wt2-%s); nothing from /verif"%prop),
 "change":kv["change"],"needs_to_manifest":kv["needs"],
 "confirmed_by_me":"scripts/seed_confirm.sh %s in a fresh scratch worktree (/tmp/sc-%s) of /repo HEAD: demo passes clean, patch applies and builds, demo fails with the patch, existing tests of the touched component pass with the patch (confirm.log); worktree removed"%(sid,sid),
 "demo":kv["demo"],
 "checks_run":{k[4:]:v for k,v in kv.items() if k.startswith("run:")},
 "caught":caught=="true","strengthening_needed":sn=="true","strengthening":kv.get("strengthening","")}
json.dump(m,open("/verif/seeded/%s/meta.json"%sid,"w"),indent=1)
print("ok",sid)
