#!/bin/bash
# Rebuilds the harness against /repo's CURRENT working tree (hooks on: -tags verif), with the
# O-maporder overlay. Go's content-addressed build cache makes this incremental.
set -euo pipefail
. /verif/scripts/env.sh
mkdir -p /verif/.build
if [ ! -f /verif/.build/overlay/overlay.json ]; then /verif/overlays/gen_maporder.sh >/dev/null; fi
cd /verif/mc
cp /repo/go.sum go.sum 2>/dev/null || true
# serialise concurrent builds (several checks may start at once)
exec 9>/verif/.build/build.lock
flock 9
/verif/overlays/gen_groupmutex.sh >/dev/null
$GO build -tags verif -overlay /verif/.build/overlay/overlay.json -o /verif/.build/check ${CHECK_MAIN:-./cmd/check}
