#!/bin/bash
# Rebuilds the harness against /repo's CURRENT working tree (hooks on: -tags verif), with the
# O-maporder overlay. Go's content-addressed build cache makes this incremental.
set -euo pipefail
. /verif/scripts/env.sh
mkdir -p /verif/.build
if [ ! -f /verif/.build/overlay/overlay.json ]; then /verif/overlays/gen_maporder.sh >/dev/null; fi
cd /verif/mc
cp /repo/go.sum go.sum 2>/dev/null || true
# serialise concurrent builds (several checks may start at once)
exec 9>/verif/.build/build.lock
flock 9
/verif/overlays/gen_groupmutex.sh >/dev/null || echo "build: O-groupmutex overlay not generated; building without it" >&2
if ! $GO build -tags verif -overlay /verif/.build/overlay/overlay.json -o /verif/.build/check ${CHECK_MAIN:-./cmd/check} 2>/verif/.build/build.err; then
  # a changed group_mutex.go may not compile against the sync shim: retry with the file as it is
  # (only C17's interleaving search needs the shim; it reports a harness error without it)
  if grep -q group_mutex /verif/.build/build.err; then
    echo "build: retrying without the O-groupmutex overlay entry" >&2
    python3 - <<'PY'
import json
p="/verif/.build/overlay/overlay.json"
o=json.load(open(p))
for k in [k for k in o["Replace"] if k.endswith("group_mutex/group_mutex.go")]: o["Replace"].pop(k)
json.dump(o,open(p,"w"),indent=1)
PY
    $GO build -tags verif -overlay /verif/.build/overlay/overlay.json -o /verif/.build/check ${CHECK_MAIN:-./cmd/check}
  else
    cat /verif/.build/build.err >&2; exit 1
  fi
fi
