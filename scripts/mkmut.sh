mkmut () 
{ 
    local name=$1 file=$2 expr=$3;
    local tmp=$(mktemp -d);
    mkdir -p $tmp/a/$(dirname $file) $tmp/b/$(dirname $file);
    cp /repo/$file $tmp/a/$file;
    sed "$expr" /repo/$file > $tmp/b/$file;
    ( cd $tmp && diff -u a/$file b/$file > /verif/mutants/$name.patch );
    local n=$(grep -c '^[-+][^-+]' /verif/mutants/$name.patch);
    echo "$name: $n changed lines";
    rm -rf $tmp
}
mkmut "$@"
