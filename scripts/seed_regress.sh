#!/bin/bash
# runs the quick check of each recorded seeded change against its patch (overlay; /repo untouched)
# and prints one line per seed: caught (exit 1) / MISSED (exit 0) / n/a (patch no longer applies)
cd /verif
for d in ${@:-$(ls seeded)}; do
  id=${d%%-*}
  out=$(scripts/mutant_run.sh seeded/$d/patch.diff $id 2>&1)
  code=$(echo "$out" | grep -o "mutant exit code: [0-9]*" | grep -o "[0-9]*$")
  if echo "$out" | grep -q "patch does not apply"; then echo "$d n/a (patch does not apply to the current tree)";
  elif [ "$code" = "1" ]; then echo "$d caught";
  elif [ "$code" = "0" ]; then echo "$d MISSED";
  else echo "$d harness-exit-$code: $(echo "$out" | grep -v '^WARNING' | tail -2 | tr '\n' ' ' | cut -c1-200)"; fi
done
