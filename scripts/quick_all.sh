#!/bin/bash
# runs every quick check on the current tree; prints one line per check
cd /verif
for id in C01 C02 C03 C04 C05 C06 C07 C08 C09 C10 C11 C12 C13 C14 C15 C16 C17 C18 C19 C20; do
  s=$(date +%s)
  scripts/check.sh $id quick > /var/tmp/quick-$id.log 2>&1; rc=$?
  echo "$id exit=$rc $(( $(date +%s)-s ))s viol=$(grep -c '^VIOLATION' /var/tmp/quick-$id.log) known=$(grep -c '^KNOWN-FINDING' /var/tmp/quick-$id.log)"
done
