#!/bin/bash
# usage: mutant_run.sh <patch-file> <property-id> [tier]
# Runs a check against /repo + a deliberate property-breaking patch WITHOUT touching /repo:
# the patched files are materialised in a scratch dir and fed to `go build -overlay`.
# Evidence/replays of the run go to the scratch dir. Prints the check's output and exit code.
set -uo pipefail
. /verif/scripts/env.sh
patch=$(readlink -f "$1"); id=$2; tier=${3:-quick}
scratch=$(mktemp -d /var/tmp/verif-mutant.XXXXXX)
trap 'rm -rf "$scratch"' EXIT
[ -f /verif/.build/overlay/overlay.json ] || /verif/overlays/gen_maporder.sh >/dev/null
files=$(grep '^+++ ' "$patch" | sed 's#^+++ [ab]/##' | awk '{print $1}')
mkdir -p "$scratch/src"
for f in $files; do mkdir -p "$scratch/src/$(dirname $f)"; [ -f /repo/$f ] && cp /repo/$f "$scratch/src/$f"; done
( cd "$scratch/src" && patch -p1 -s < "$patch" ) || { echo "mutant: patch does not apply"; exit 2; }
# a patched file that the standing overlay already rewrites (O-groupmutex: `sync` -> harness shim in
# group_mutex.go) gets the same one-line rewrite, so the mutated code runs under the controlled scheduler
gm=pkg/binder/binding/resourcereservation/group_mutex/group_mutex.go
if [ -f "$scratch/src/$gm" ]; then
  sed -i 's#^\([[:space:]]*\)"sync"[[:space:]]*$#\1sync "verif/mc/checks/binderrun/syncshim"#' "$scratch/src/$gm"
  grep -q 'sync "verif/mc/checks/binderrun/syncshim"' "$scratch/src/$gm" || { echo "mutant: group_mutex.go rewrite failed"; exit 2; }
fi
python3 - "$scratch" $files <<'P'
import json,sys
scratch=sys.argv[1]; files=sys.argv[2:]
o=json.load(open('/verif/.build/overlay/overlay.json'))
for f in files: o["Replace"]["/repo/"+f]=scratch+"/src/"+f
json.dump(o,open(scratch+"/overlay.json","w"))
P
cd /verif/mc
if ! $GO build -tags verif -overlay "$scratch/overlay.json" -o "$scratch/check" ${CHECK_MAIN:-./cmd/check} 2>"$scratch/build.err"; then
  echo "mutant: build failed"; cat "$scratch/build.err"; exit 2
fi
cd /verif
env VERIF_OUT="$scratch" ${MUTANT_ENV:-} "$scratch/check" "$id" --tier "$tier" ${MUTANT_ARGS:-}
code=$?
echo "mutant exit code: $code"
exit $code
