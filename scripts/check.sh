#!/bin/bash
# usage: check.sh <property-id> <quick|thorough> [--replay file]
set -uo pipefail
. /verif/scripts/env.sh
id=$1; tier=${2:-quick}; shift; shift || true
if ! out=$(/verif/scripts/build.sh 2>&1); then
  echo "harness error: build failed" >&2; echo "$out" >&2; exit 2
fi
cd /verif
exec /verif/.build/check "$id" --tier "$tier" "$@"
